"""C12  A crash at any point never yields a wrong result or a wedged cache.

Fault enumeration (DESIGN 4.1, 5/C12).  For each task kind a dry run under the line monitor of
vlib/inject/linefault.py records the ordered (function, line) events of the job path.  Every event
index k x mode in {crash, interrupt} is one case: the submission is re-executed in a forked child and
dies at event k (`os._exit(137)`: no finally, lock files of the dead PID stay / `KeyboardInterrupt`),
everything the child leaves behind is killed and reaped, and the same task is submitted again into
the same cache root by a fresh process under a wide watchdog.  File writes in progress are modelled
by truncating each file the job path writes to many prefix lengths (after a complete run, and after
a crash right behind the write so that the dead process's lock and bookkeeping files are there too):
lengths spread over the file (the file ends inside a pickle frame) and boundary lengths (empty, one
byte, exactly in front of the 2nd..4th opcode = after the protocol header / after the frame header,
exactly in front of every further frame, all but the last byte).

Oracle for the resubmission: it returns the correct outputs (from the cache or by re-executing);
each body ran at most once in the resubmission and at most twice over both submissions; it never
returns errored=False with outputs None/NOTHING; it does not raise; it does not hang on a lock file
left by the dead process.
"""
from __future__ import annotations

import inspect
import os
from pathlib import Path

from vlib import scratchdir
from vlib.gen import faults as G
from vlib.harness import HarnessError
from vlib.inject import linefault as LF

ID = "C12"
LEVEL = "fault_enumeration"
DESIGN_REF = "5/C12, 4.1"
TECHNIQUE = "sys.monitoring line-event fault enumeration + file truncation, resubmission oracle"
RULE = (
    "cases = (task kind, mode, event index k) for EVERY line event k that a dry run of the kind "
    "executes inside the job path (Job.run / run_async / _populate_filesystem, result.save / "
    "record_error, Audit.start_audit / finalize_audit, the task _run), modes crash (os._exit at the "
    "event) and interrupt (KeyboardInterrupt at the event); plus (kind, state, job, file, cut) "
    "truncation cases for every pickle the job path writes (cut = a length spread over the file, or a "
    "boundary: 0, 1, size-1, the start of opcode 1..3 of the pickle, the start of each further frame). Kinds: python task, shell task, two-node "
    "workflow under the debug worker and under cf (events of pool workers are numbered in the same "
    "sequence). Non-trivial = the fault really fired at the expected (function, line) / the file was "
    "really cut short; distinct = (kind, mode, event index) resp. (kind, state, job, file, cut)."
)
ASSUMPTIONS = [
    "a crash is os._exit at a line boundary of the job path plus truncation of the written files; "
    "faults inside C code (pickle.dump, filelock internals) are covered only through truncation",
    "the whole process tree of the dead submission is gone (killed and reaped) before the resubmission",
    "a hang is decided by a watchdog of max(90 s, 40 x the measured cost of a plain run; normal cost "
    "0.1-1.5 s) and reported only when the traced job path reached no new line for >= 60 s while an "
    "untouched lock file of the dead process is still there; any other timeout is counted as inconclusive",
    "quick tier: every point of the python and shell tasks, every 3rd point of the debug workflow and "
    "every 6th of the cf workflow (residue rotates with VERIF_SEED), 35 (python task) / 13 cut lengths per result file "
    "(6 boundary lengths + spread lengths, alternating in the execution order); "
    "thorough: all points, all cut lengths of the result file of the python task",
]
SHARDS = {"quick": 16, "thorough": 16}
WALL = {"quick": 240, "thorough": 1500}
EXHAUSTIVE_WHEN_COMPLETED = True
EXHAUSTIVE_NOTE = (
    "all executed line events of the job path x {crash, interrupt} for the listed task kinds "
    "(quick: debug workflow sub-sampled 1/3, cf workflow 1/6); truncation lengths sampled except where stated"
)

KINDS = ["python", "shell", "wf_debug", "wf_cf"]
FAULT_MODES = ["crash", "interrupt"]
FAULT_TIMEOUT = 150.0   # lower bounds; scaled up by the measured cost of a plain run (see timeouts())
RESUB_TIMEOUT = 90.0
IDLE_FOR_HANG = 60.0    # no job-path progress for this long + an untouched lock of a dead process
X = 3
DRY_WALL: dict = {}     # kind -> wall seconds of an un-faulted monitored run in this process

# save() calls in execution order for each kind: (job name, phase)
SAVE_PLAN = {
    "python": [("main", "populate"), ("main", "final")],
    "shell": [("main", "populate"), ("main", "final")],
    "wf_debug": [("main", "populate"), ("A", "populate"), ("A", "final"),
                 ("B", "populate"), ("B", "final"), ("main", "final")],
}
SAVE_PLAN["wf_cf"] = SAVE_PLAN["wf_debug"]

LAST: dict = {}  # labels of the most recent check_case (read by run())


# ------------------------------------------------------------------------------------ machinery
def _spec(kind):
    return {"kind": kind, "x": X}


def dry_run(kind, d: Path):
    """complete monitored run in a forked child -> (trace rows, CaseDir)"""
    cd = G.CaseDir(d)

    def go():
        with LF.Session(d / "mon"):
            return G.submit(_spec(kind), cd)

    r = LF.run_forked(go, 900.0, d / "dry.json", d / "dry.log")
    if r["status"] != "ok" or r["result"]["raised"] or r["result"]["outputs"] != G.expected_outputs(_spec(kind)):
        raise HarnessError(f"dry run of kind {kind} did not succeed: {r}")
    DRY_WALL[kind] = max(DRY_WALL.get(kind, 0.0), r["wall_s"])
    return LF.read_trace(d / "mon"), cd


def timeouts(kind):
    """(fault-run watchdog, resubmission watchdog): >= 150 s / 90 s and >= 40x the cost (capped at 300 s / 240 s) of a plain
    run measured in this process, so that a loaded machine cannot turn slowness into a verdict"""
    if kind not in DRY_WALL:
        dd = scratchdir.new("c12cal")
        try:
            dry_run(kind, dd)
        finally:
            scratchdir.rm(dd)
    w = DRY_WALL[kind]
    return min(300.0, max(FAULT_TIMEOUT, 40 * w)), min(240.0, max(RESUB_TIMEOUT, 40 * w))


def _lock_files(cache: Path):
    return sorted(str(p.relative_to(cache)) for p in Path(cache).rglob("*.lock"))


def _lock_owner(path: Path):
    try:
        return int(path.read_text().split()[0])
    except Exception:
        return None


def _lock_state(cache: Path):
    """{relative path: [inode, content]} of every lock file"""
    out = {}
    for rel in _lock_files(cache):
        p = Path(cache) / rel
        try:
            out[rel] = [p.stat().st_ino, p.read_text()]
        except OSError:
            pass
    return out


def _resubmit_and_judge(case, cd: G.CaseDir, d: Path, counts_before: dict, what: str):
    """the C12 oracle proper"""
    kind = case["kind"]
    spec = _spec(kind)
    expected = G.expected_outputs(spec)
    tags = G.KINDS[kind]["tags"]
    locks_before = _lock_state(cd.cache)
    resub_timeout = timeouts(kind)[1]

    def go():
        stored_before = G.stored_results(cd.cache)
        # traced (not faulted): the trace tells how far the job path got if the watchdog fires
        with LF.Session(d / "mon_resub"):
            res = G.submit(spec, cd)
        res["stored_before"] = stored_before
        res["stored_after"] = G.stored_results(cd.cache)
        return res

    import time as _time

    t_start = _time.time()
    r = LF.run_forked(go, resub_timeout, d / "resub.json", d / "resub.log")
    counts_after = cd.body_counts()
    LAST["resub_wall"] = r["wall_s"]
    recs = []
    state = dict(what=what, locks_before=sorted(locks_before), body_counts_before=counts_before,
                 body_counts_after=counts_after, listing=G.listing(cd.cache)[:40])
    if r["status"] == "timeout":
        # a hang is reported only if (1) a lock file that the dead process left is still there,
        # untouched, and its owner is dead and (2) the job path made no progress for >= IDLE_FOR_HANG
        now = t_start + r["wall_s"]
        rows = LF.read_trace(d / "mon_resub")
        # progress = an event not seen before (a polling loop inside the job path is not progress)
        seen, last_t, last_new = set(), t_start, None
        for row in rows:
            key = (row[1], row[2], row[3])
            if key not in seen:
                seen.add(key)
                last_t, last_new = row[4], row
        idle = now - last_t
        after = _lock_state(cd.cache)
        stale = []
        for rel, st_ in locks_before.items():
            if after.get(rel) == st_:
                pid = _lock_owner(cd.cache / rel)
                if pid is not None and not LF.pid_alive(pid):
                    stale.append(rel)
        state.update(idle_s=round(idle, 1), last_new_event=last_new[2:4] if last_new else None,
                     watchdog_s=resub_timeout)
        if stale and idle >= IDLE_FOR_HANG:
            LAST["resub"] = "hang"
            recs.append(dict(
                signature=f"resubmission-hangs-on-dead-process-lock:{case['mode']}",
                observed=f"no result after {resub_timeout:.0f} s, no progress for {idle:.0f} s; "
                         f"untouched lock files of dead processes: {stale}",
                expected="stale lock broken, task re-executed", detail=state))
        else:
            LAST["resub"] = "inconclusive_timeout"
        return recs
    if r["status"] != "ok":
        LAST["resub"] = "died"
        recs.append(dict(signature=f"resubmission-process-died:{r['status']}", observed=r["status"],
                         expected="the resubmission returns", detail=state))
        return recs
    res = r["result"]
    re_exec = {t: counts_after.get(t, 0) - counts_before.get(t, 0) for t in tags}
    if not any(re_exec.values()):
        LAST["resub"] = "cache_hit"
    elif all(re_exec.values()):
        LAST["resub"] = "reexecuted_all"
    else:
        LAST["resub"] = "reexecuted_part"
    state["stored_before"] = res.get("stored_before")
    state["stored_after"] = res.get("stored_after")
    # defect model shared by every manifestation of "an incomplete result is stored as a success":
    # some job directory held errored=False with outputs None/NOTHING before the resubmission and
    # the resubmission did not come back with the correct outputs (it returned that result, or a
    # downstream node / the workflow broke on it)
    poisoned = [n for n, v in (res.get("stored_before") or {}).items()
                if isinstance(v, dict) and v["errored"] is False
                and (v["outputs"] is None or "<NOTHING>" in v["outputs"].values())]
    correct = (not res["raised"] and res["errored"] is False and res["outputs"] == expected)
    if poisoned and not correct:
        recs.append(dict(
            signature=f"incomplete-result-returned-as-success:{case['mode']}:served-from-cache",
            observed=dict(stored_as_success_without_outputs=poisoned, raised=res["raised"],
                          errored=res["errored"], outputs=res["outputs"]),
            expected=f"outputs {expected}", detail=state))
        return recs
    if res["raised"]:
        recs.append(dict(signature=f"resubmission-raises:{case['mode']}:{res['raised']['sig']}",
                         observed=res["raised"], expected=f"outputs {expected}", detail=state))
        return recs
    out = res["outputs"]
    if sticky_errored_model(kind, res, expected, LAST["resub"]):
        recs.append(dict(
            signature="rerun-of-errored-result-reports-errored-although-it-succeeded",
            observed=dict(returned=dict(errored=res["errored"], outputs=out),
                          stored_after=res.get("stored_after")),
            expected=f"outputs {expected}", detail=state))
        return recs
    incomplete = out is None or any(v == "<NOTHING>" for v in out.values())
    if not res["errored"] and incomplete:
        how = "served-from-cache" if LAST["resub"] == "cache_hit" else "after-reexecution"
        recs.append(dict(
            signature=f"incomplete-result-returned-as-success:{case['mode']}:{how}",
            observed=dict(errored=res["errored"], outputs=out), expected=f"outputs {expected}",
            detail=state))
    elif res["errored"]:
        recs.append(dict(signature=f"resubmission-errored:{case['mode']}",
                         observed=dict(errored=True, outputs=out), expected=f"outputs {expected}",
                         detail=state))
    elif out != expected:
        recs.append(dict(signature=f"wrong-result:{case['mode']}", observed=out,
                         expected=expected, detail=state))
    for t in tags:
        if re_exec[t] > 1:
            recs.append(dict(signature=f"body-executed-twice-in-resubmission:{case['mode']}",
                             observed=re_exec, expected="<= 1 per body", detail=state))
            break
        if counts_after.get(t, 0) > 2:
            recs.append(dict(signature=f"body-executed-more-than-twice:{case['mode']}",
                             observed=counts_after, expected="<= 2 per body", detail=state))
            break
    return recs


def sticky_errored_model(kind, res, expected, resub):
    """Defect model: the top-level job's stored result was errored=True before the resubmission
    (Job.result() then latches Job._errored), the resubmission re-executed and stored the correct
    successful result, yet it returned Result(errored=True, outputs=None)."""
    if not (res["errored"] is True and res["outputs"] is None and resub != "cache_hit"):
        return False
    prefix = "workflow-" if kind.startswith("wf") else ("shell-" if kind.startswith("shell") else "python-")
    before = {n: v for n, v in (res.get("stored_before") or {}).items() if n.startswith(prefix)}
    after = {n: v for n, v in (res.get("stored_after") or {}).items() if n.startswith(prefix)}
    if kind.startswith("wf"):
        mains = list(after)
    else:
        mains = list(after)
    for n in mains:
        b, a = before.get(n), after.get(n)
        if (isinstance(b, dict) and b["errored"] is True and isinstance(a, dict)
                and a["errored"] is False and a["outputs"] == expected):
            return True
    return False


def _fault_run(case, cd: G.CaseDir, d: Path):
    kind, k = case["kind"], case["event_index"]
    mode = "crash" if case["mode"] == "truncate" else case["mode"]

    def go():
        with LF.Session(d / "mon", fault=(k, mode), trace=False):
            return G.submit(_spec(kind), cd)

    r = LF.run_forked(go, timeouts(kind)[0], d / "fault.json", d / "fault.log")
    fired = LF.read_fired(d / "mon")
    LAST["fault_status"] = r["status"].split(":")[0] if r["status"] != "exit:137" else "exit137"
    LAST["fired"] = fired is not None
    if fired is not None:
        LAST["where"] = fired["function"]
        exp = case.get("expect")
        LAST["mismatch"] = bool(exp) and [fired["function"], fired["line"]] != list(exp)
    return r, fired


def check_fault(case):
    d = scratchdir.new("c12")
    try:
        cd = G.CaseDir(d)
        r, fired = _fault_run(case, cd, d)
        what = f"{case['mode']} at event {case['event_index']}"
        if fired:
            what += f" = {fired['function']}:{fired['line']} (pid {fired['pid']}, run ended {r['status']})"
        else:
            what += " (did not fire: the run has fewer events)"
        return _resubmit_and_judge(case, cd, d, cd.body_counts(), what)
    finally:
        scratchdir.rm(d)


def pickle_marks(data: bytes):
    """(offsets at which the opcodes of the pickle start, offsets at which its frames start): the
    places where a pickler hands data to the file, i.e. where a file that is still being written
    really ends.  A file cut there makes the unpickler run out of input cleanly instead of
    finding a truncated frame."""
    import pickletools

    ops, frames = [], []
    try:
        for op, _arg, pos in pickletools.genops(data):
            ops.append(pos)
            if op.name == "FRAME":
                frames.append(pos)
    except Exception as e:  # the complete file is written by pydra: it must parse
        raise HarnessError(f"result file is not a complete pickle: {e!r}")
    return ops, frames


def cut_length(cut, size: int, path=None) -> int:
    how = cut[0]
    if how in ("op", "frame"):
        ops, frames = pickle_marks(Path(path).read_bytes())
        marks = ops if how == "op" else frames
        n = marks[min(cut[1], len(marks) - 1)]
        LAST["clamped"] = cut[1] > len(marks) - 1
    elif how == "abs":
        n = cut[1]
    elif how == "end":
        n = size - cut[1]
    elif how == "frac":
        n = size * cut[1] // cut[2]
    else:
        raise HarnessError(f"bad cut {cut}")
    return max(0, min(n, size - 1))


def check_truncate(case):
    d = scratchdir.new("c12t")
    try:
        cd = G.CaseDir(d)
        kind = case["kind"]
        if case["state"] == "crash":
            r, fired = _fault_run(case, cd, d)
            if not fired:
                LAST["resub"] = "skipped_not_fired"
                return []
            what = f"crash at event {case['event_index']} = {fired['function']}:{fired['line']}, then "
        else:
            r = LF.run_forked(lambda: G.submit(_spec(kind), cd), timeouts(kind)[0],
                              d / "full.json", d / "full.log")
            if r["status"] != "ok" or r["result"]["raised"]:
                raise HarnessError(f"complete run failed: {r}")
            what = "complete run, then "
        dirs = G.job_dirs(cd.cache)
        if case["job"] not in dirs:
            raise HarnessError(f"job {case['job']} has no directory: {dirs} ({what})")
        f = cd.cache / dirs[case["job"]] / case["file"]
        if not f.exists():
            raise HarnessError(f"{f} does not exist ({what})")
        size = f.stat().st_size
        LAST["clamped"] = False
        n = cut_length(case["cut"], size, f)
        LAST["clamped"] = LAST["clamped"] or (case["cut"][0] == "abs" and case["cut"][1] != n)
        LAST["fired"] = True
        with open(f, "r+b") as fp:
            fp.truncate(n)
        what += f"{case['job']}/{case['file']} cut from {size} to {n} bytes"
        return _resubmit_and_judge(case, cd, d, cd.body_counts(), what)
    finally:
        scratchdir.rm(d)


def resolve(case):
    """cases may name the point by source text ("at_source") instead of by event index"""
    if "event_index" in case or case.get("state") == "complete":
        return case
    dd = scratchdir.new("c12loc")
    try:
        trace, _ = dry_run(case["kind"], dd)
    finally:
        scratchdir.rm(dd)
    row = LF.locate(trace, case["at_source"])
    if row is None:
        return None
    return dict(case, event_index=row[0], expect=[row[2], row[3]])


def check_case(case):
    LAST.clear()
    case = resolve(case)
    if case is None:
        LAST["resub"] = "point_not_found"
        return []
    if case["mode"] in FAULT_MODES:
        return check_fault(case)
    if case["mode"] == "truncate":
        return check_truncate(case)
    raise HarnessError(f"unknown mode {case['mode']}")


# ------------------------------------------------------------------------------------ enumeration
def _dump_lines():
    """absolute line numbers of the two cp.dump statements of result.save"""
    from pydra.engine import result as R

    src, first = inspect.getsourcelines(R.save)
    out = {}
    for i, ln in enumerate(src):
        s = ln.strip()
        if s.startswith("cp.dump(result"):
            out["_result.pklz"] = first + i
        elif s.startswith("cp.dump(job") and "_job.pklz" not in out:
            out["_job.pklz"] = first + i
    return out


def truncation_targets(kind, trace, sh):
    """[(event index of the crash right behind the completed write, job, file, phase)]"""
    plan = SAVE_PLAN[kind]
    dl = _dump_lines()
    calls, prev = [], None
    for row in trace:
        if row[2] == "save" and prev != "save":
            calls.append([])
        if row[2] == "save":
            calls[-1].append(row)
        prev = row[2]
    if len(calls) != len(plan) or len(dl) != 2:
        sh.note(f"L1 unavailable: save() call plan of kind {kind} does not match the trace "
                f"({len(calls)} calls, dump lines {dl}); crash-state truncation skipped")
        return []
    out = []
    for (job, phase), rows in zip(plan, calls):
        for fname, line in dl.items():
            hit = [i for i, r in enumerate(rows) if r[3] == line]
            if not hit:
                continue
            i = hit[0]
            # the event after the dump is the exit of the `with` block (same line as the one before
            # the dump): the file is closed only at the event after that
            j = i + 2 if i + 2 < len(rows) and i >= 1 and rows[i + 1][3] == rows[i - 1][3] else i + 1
            if j < len(rows):
                k = rows[j][0]
            else:
                k = rows[-1][0] + 1
                if k >= len(trace):
                    continue
            out.append((k, job, fname, phase))
    return out


N_OP_CUTS = 3       # the file ends exactly in front of opcode 1..3 (PROTO | FRAME header | first item)
MAX_FRAME_CUTS = 6  # ... or exactly in front of a further frame (files of more than one frame)


def boundary_cuts(n_frames=1):
    """ends that a write in progress really produces (nothing, a flushed header, whole frames,
    everything but the last byte), most plausible first"""
    cuts = [["abs", 0], ["op", 1], ["end", 1], ["abs", 1]]
    cuts += [["frame", j] for j in range(1, min(n_frames, MAX_FRAME_CUTS + 1))]
    cuts += [["op", i] for i in range(2, N_OP_CUTS + 1)]
    return cuts


def is_boundary_cut(cut):
    return cut[0] in ("op", "frame", "end") or (cut[0] == "abs" and cut[1] <= 1)


def cuts_for(size, n_spread, every=False, n_frames=1):
    if every:
        return boundary_cuts(n_frames) + [["abs", i] for i in range(size)]
    cuts = boundary_cuts(n_frames)
    cuts += [["frac", i, n_spread] for i in range(1, n_spread - 2)]
    return cuts


def interleave(cases):
    """proportional interleaving of the (kind, mode) groups, so that a run that is cut short by its
    time budget has still sampled every group evenly (the order is deterministic)"""
    phi = 0.6180339887498949
    groups: dict = {}
    for c in cases:
        g = (c["kind"], c["mode"], c.get("state"))
        if c["mode"] == "truncate":      # one group per truncated file
            g += (c["job"], c["file"], c.get("phase"))
        groups.setdefault(g, []).append(c)
    order = {g: i for i, g in enumerate(groups)}
    keyed = []
    for g, lst in groups.items():
        if g[1] == "truncate":
            # boundary cuts (in their order) alternate with the spread cuts (in an order whose
            # prefixes cover the whole file), so that a prefix of the group has both classes
            bnd = [c for c in lst if is_boundary_cut(c["cut"])]
            spr = [c for c in lst if not is_boundary_cut(c["cut"])]
            spr = [c for _, _, c in sorted(((j * phi) % 1.0, j, c) for j, c in enumerate(spr))]
            merged = []
            for j in range(max(len(bnd), len(spr))):
                merged += bnd[j:j + 1] + spr[j:j + 1]
            for j, c in enumerate(merged):
                keyed.append((j / len(merged), order[g], j, c))
            continue
        for j, c in enumerate(lst):
            # bit-reversal-like spread inside the group: early items cover the whole path
            keyed.append(((j * phi) % 1.0 if len(lst) > 1 else 0.0, order[g], j, c))
    keyed.sort(key=lambda t: t[:3])
    return [t[3] for t in keyed]


def run(sh):
    base = scratchdir.new("c12dry")
    cases = []
    for kind in KINDS:
        trace, cd = dry_run(kind, base / kind)
        if sh.index == 0:  # the same in every shard
            sh.count(f"trace_events:{kind}", len(trace))
        # quick tier: the two nodes of the workflow run the same code path, so the workflows are
        # sub-sampled (the residue class rotates with VERIF_SEED); thorough: every point
        step = {"wf_debug": 3, "wf_cf": 6}.get(kind, 1) if sh.quick else 1
        off = sh.base_seed % step
        for row in trace:
            k = row[0]
            if k % step != off:
                continue
            for mode in FAULT_MODES:
                cases.append(dict(kind=kind, mode=mode, event_index=k, expect=[row[2], row[3]]))
        # truncation
        dirs = G.job_dirs(cd.cache)
        sizes = {(j, f): (cd.cache / dn / f).stat().st_size
                 for j, dn in dirs.items() for f in ("_result.pklz", "_job.pklz")
                 if (cd.cache / dn / f).exists()}
        n_frames = {(j, f): len(pickle_marks((cd.cache / dirs[j] / f).read_bytes())[1])
                    for (j, f) in sizes}
        n_spread = 32 if sh.quick else 64
        for (job, fname), size in sorted(sizes.items()):
            every = (not sh.quick) and kind == "python" and fname == "_result.pklz"
            if sh.quick and (fname == "_job.pklz" and kind != "python" or kind == "wf_cf" and job != "main"):
                continue
            n_cuts = n_spread if fname == "_result.pklz" else 8
            if sh.quick and kind != "python":
                n_cuts = min(n_cuts, 10)
            for cut in cuts_for(size, n_cuts, every, n_frames[(job, fname)]):
                cases.append(dict(kind=kind, mode="truncate", state="complete", job=job,
                                  file=fname, cut=cut))
        for k, job, fname, phase in truncation_targets(kind, trace, sh):
            if sh.quick and (kind == "wf_cf" or (kind != "python" and fname == "_job.pklz")):
                continue
            size = sizes.get((job, fname), 1024)
            every = (not sh.quick) and kind == "python" and fname == "_result.pklz"
            row = trace[k]
            n_cuts = n_spread if fname == "_result.pklz" else 8
            if sh.quick and kind != "python":
                n_cuts = min(n_cuts, 10)
            for cut in cuts_for(size, n_cuts, every, n_frames.get((job, fname), 1)):
                cases.append(dict(kind=kind, mode="truncate", state="crash", event_index=k,
                                  expect=[row[2], row[3]], job=job, file=fname, phase=phase,
                                  cut=cut))
    scratchdir.rm(base)

    cases = interleave(cases)
    done_all = True
    for i, case in enumerate(cases):
        if i % sh.n != sh.index:
            continue
        if sh.out_of_time():
            done_all = False
            break
        if case["mode"] == "truncate":
            key = [case["kind"], case["state"], case["job"], case["file"], case.get("phase"), case["cut"]]
        else:
            key = [case["kind"], case["mode"], case["event_index"]]
        recs = check_case(case)
        info = dict(LAST)
        nontrivial = bool(info.get("fired")) and not info.get("mismatch")
        labels = [f"mode:{case['mode']}", f"kind:{case['kind']}", f"resub:{info.get('resub')}"]
        if case["mode"] == "truncate":
            labels.append(f"truncate:{case['state']}:{case['file']}")
            if info.get("clamped"):
                labels.append("cut_clamped")
            labels.append("cut:" + ("boundary:" + case["cut"][0] if is_boundary_cut(case["cut"])
                                    else "spread"))
        else:
            labels.append(f"fault_run:{info.get('fault_status')}")
            if info.get("where"):
                labels.append(f"at:{info['where']}")
            if not info.get("fired"):
                labels.append("fault_not_fired")
            if info.get("mismatch"):
                labels.append("trace_mismatch")
        sh.record_case(case, nontrivial, key=key, labels=labels)
        if info.get("resub_wall", 0) > 5:
            sh.count("resubmission_slower_than_5s")
        sh.handle(case, recs, raise_unattributed=False)
    if done_all:
        sh.count("exhaustive_subspaces_completed")
