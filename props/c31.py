"""C31  Requirement and mutual-exclusion rules are enforced exactly, before any execution.

Generated python-task definitions (2-5 fields of kinds bool / Optional[bool] / Optional[str] /
mandatory str / mandatory bool, alternative requirement sets with and without allowed values, xor
groups with and without None).  For every definition ALL assignments over the type-appropriate
subset of {not passed, None, False, True, "a", "b"} are enumerated and each one is decided by the
independent predicate of vlib/ref/rules.py:

  rules hold      <=>  `_check_rules()` passes (L1), and the task runs end to end with the debug
                       worker, its body executed exactly once (L2)
  rules violated  <=>  ValueError from `_check_rules()` (L1), and from the submission with the
                       body never executed (L2)
  wf              a few assignments per definition reach the task as outputs of an upstream
                  workflow node (unknown at construction, so only Job.__init__ can check them)
  consistency     where the statement leaves the reading open (explicit False of an Optional[bool])
                  every single assignment is accepted either way, but one reading must explain all
                  verdicts of the definition.
"""
from __future__ import annotations

import os
import typing as ty
from collections import OrderedDict

from hypothesis import strategies as st

from vlib import scratchdir
from vlib.gen import rules as G
from vlib.harness import HarnessError, canon, exception_signature, short
from vlib.ref import rules as R

ID = "C31"
LEVEL = "exploration"
DESIGN_REF = "5/C31"
TECHNIQUE = "generated definitions x exhaustive assignments vs an independent rule predicate"
WALL = {"quick": 240, "thorough": 1500}
RULE = (
    "cases = (definition, assignment): definitions with 2-5 fields (bool, bool|None, str|None, "
    "mandatory str, mandatory bool), per field 0-2 alternative requirement sets of 1-2 "
    "requirements (40% with allowed values), 0-2 xor groups of 2-3 fields (half with None); every "
    "assignment of the definition is enumerated (<= 243) and decided at L1; all rule-violating and "
    "<= 4 accepted assignments per definition are also submitted end to end (L2); plus <= 4 "
    "assignments through a workflow node and one consistency case per definition. Non-trivial = the definition declares a rule "
    "that involves a field the assignment sets, or the assignment violates a rule; distinct = "
    "(definition, assignment, level)."
)
ASSUMPTIONS = [
    "values 0 and '' (falsy but set) are not generated: the statement does not say whether they "
    "count as set",
    "an explicit False of an Optional[bool] field may count as set or as unset, but consistently "
    "within one definition",
    "requirement sets are spelled unambiguously as a list of lists; the flat-list spelling "
    "requires=['a','b'] (documented as 'required together', implemented as alternatives) is not "
    "judged",
    "python tasks only (the rule code is shared by all task kinds); split tasks are not covered",
    "a rule violation must surface as ValueError; any other exception type is reported",
]
MIXED_SIG = "optional-bool-False-counts-as-set-only-as-requirement-target"
LAZY_SIG = "wf:rules-decided-on-unresolved-lazy-inputs-at-construction"
TYPES = {"bool": (bool, False), "optbool": (bool | None, None), "optstr": (str | None, None),
         "str": (str, R.UNSET), "mbool": (bool, R.UNSET)}
BODY = (
    "def Fn({args}):\n"
    "    import os as _os\n"
    "    _fd = _os.open(log, _os.O_WRONLY | _os.O_APPEND | _os.O_CREAT)\n"
    "    _os.write(_fd, b'x')\n"
    "    _os.close(_fd)\n"
    "    return 1\n"
)
OK_RUNS = 4   # accepted assignments per definition that are also executed end to end
_built: "OrderedDict[str, tuple]" = OrderedDict()


def _spell(reqs):
    return [[(t if allowed is None else (t, list(allowed))) for t, allowed in rs] for rs in reqs]


def build(spec):
    """(task class, workflow class) for a definition spec; cached per process"""
    key = canon(spec)
    if key in _built:
        _built.move_to_end(key)
        return _built[key]
    from pydra.compose import python, workflow

    names = [f["name"] for f in spec["fields"]]
    inputs = {}
    for f in spec["fields"]:
        tp, default = TYPES[f["kind"]]
        kw = dict(type=tp)
        if default != R.UNSET:
            kw["default"] = default
        if f.get("requires"):
            kw["requires"] = _spell(f["requires"])
        inputs[f["name"]] = python.arg(**kw)
    inputs["log"] = python.arg(type=str, default="")
    ns: dict = {}
    exec(BODY.format(args=", ".join(names + ["log"])), ns)
    T = python.define(ns["Fn"], inputs=inputs, outputs=["out"],
                      xor=[list(g) for g in spec.get("xor", [])] or ())

    # every value reaches the node as the *output of an upstream node*, i.e. it is unknown when the
    # workflow is constructed (Workflow.construct checks the rules of nodes whose values are
    # known), so only the creation of the node's job can check the rules
    from vlib.tasks_pure3 import Spread

    def wf(eager):
        """workflow feeding the task node from the upstream node `s`, except for the fields in
        `eager`, which are passed as workflow inputs (known when the workflow is constructed)"""
        ns2: dict = {"workflow": workflow, "T": T, "Spread": Spread}
        kw = ", ".join(f"{n}={n}" if n in eager else f"{n}=s.o{i}" for i, n in enumerate(names))
        exec("def Ctor({a}):\n"
             "    s = workflow.add(Spread(vals=vals), name='s')\n"
             "    node = workflow.add(T({kw}, log=log), name='n')\n"
             "    return node.out\n".format(a=", ".join(["vals", "log"] + sorted(eager)), kw=kw), ns2)
        ins = {"vals": workflow.arg(type=list), "log": workflow.arg(type=str)}
        ins.update({n: workflow.arg(type=ty.Any, default=None) for n in sorted(eager)})
        return workflow.define(ns2["Ctor"], inputs=ins, outputs=["out"])

    W = wf(set())
    members = xor_members(spec)
    W2 = wf(members) if members else None
    _built[key] = (T, W, W2)
    while len(_built) > 6:
        _built.popitem(last=False)
    return _built[key]


def xor_members(spec) -> set:
    return {g for grp in spec.get("xor", []) for g in grp if g is not None}


def _through_construct(exc) -> bool:
    """the error was raised while the workflow was being constructed (not at job creation)"""
    import traceback

    return any(fr.name == "construct" and fr.filename.endswith("engine/workflow.py")
               for fr in traceback.extract_tb(exc.__traceback__))


def _kwargs(asg):
    return {k: v for k, v in asg.items() if not (isinstance(v, str) and v == R.UNSET)}


def _ran(log) -> int:
    try:
        return os.path.getsize(log)
    except OSError:
        return 0


def _classify(spec, asg, got_ok: bool, exp_labels):
    """signature for a wrong verdict"""
    mixed_ok = not R.violated(spec, asg, "mixed")
    if got_ok == mixed_ok and mixed_ok != (not exp_labels):
        return MIXED_SIG
    if got_ok:
        return "rule-violation-not-reported:" + R.rule_kinds(exp_labels)
    return "valid-assignment-rejected"


def _l1(T, kw):
    """('ok', None) | ('rejected', exc) | ('error', exc)"""
    try:
        t = T(**kw)
        t._check_rules()
        return "ok", None
    except ValueError as e:
        return "rejected", e
    except Exception as e:  # noqa
        return "error", e


def _run(cls, kw, d):
    log = str(d / "log")
    try:
        out = cls(log=log, **kw)(cache_root=d / "cache", worker="debug")
        return "ok", out, _ran(log)
    except ValueError as e:
        return "rejected", e, _ran(log)
    except Exception as e:  # noqa
        return "error", e, _ran(log)


def check_assignment(case):
    spec, asg, level = case["def"], case["asg"], case["level"]
    T, W, W2 = build(spec)
    kw = _kwargs(asg)
    exp_u, exp_s = R.violated(spec, asg, "unset"), R.violated(spec, asg, "set")
    open_case = bool(exp_u) != bool(exp_s)
    exp = exp_u
    out = []

    def judge(tag, status, exc, ran):
        if status == "error":
            out.append(dict(signature=exception_signature(exc, f"{tag}-unexpected-exception"),
                            observed=short(exc), expected="ValueError or success",
                            detail=dict(violated=exp)))
            return
        got_ok = status == "ok"
        if not open_case and got_ok != (not exp):
            out.append(dict(signature=f"{tag}:" + _classify(spec, asg, got_ok, exp),
                            observed="accepted" if got_ok else short(exc),
                            expected="ValueError: " + ", ".join(exp) if exp else "accepted",
                            detail=dict(violated=exp)))
        if ran is not None:
            if got_ok and ran != 1:
                out.append(dict(signature=f"{tag}:accepted-but-body-ran-{min(ran, 2)}-times",
                                observed=ran, expected=1))
            if not got_ok and ran:
                out.append(dict(signature=f"{tag}:rule-violation-reported-after-execution",
                                observed=dict(error=short(exc), body_ran=ran),
                                expected="error before the body runs"))

    if level == "task":
        l1 = None
        if hasattr(T, "_check_rules"):
            l1, exc = _l1(T, kw)
            judge("l1", l1, exc, None)
        # end to end: every assignment that violates a rule (must fail before the body runs),
        # every assignment L1 did not accept, and the accepted ones marked run=true (a successful
        # run costs ~80 ms, so only a sample of them is executed)
        if case.get("run", True) or exp or l1 != "ok":
            d = scratchdir.new("c31")
            try:
                st_, res, ran = _run(T, kw, d)
                judge("l2", st_, res if st_ != "ok" else None, ran)
                if st_ == "ok" and getattr(res, "out", None) != 1:
                    out.append(dict(signature="l2:wrong-output", observed=repr(res), expected="out=1"))
            finally:
                scratchdir.rm(d)
    elif level in ("wf", "wf2"):
        if any(isinstance(v, str) and v == R.UNSET for v in asg.values()):
            raise HarnessError("C31 wf cases cannot leave a field unset")
        eager = xor_members(spec) if level == "wf2" else set()
        if level == "wf2" and W2 is None:
            raise HarnessError("C31 wf2 case without xor group")
        d = scratchdir.new("c31w")
        try:
            args = dict(vals=[asg[f["name"]] for f in spec["fields"]], **{n: asg[n] for n in eager})
            st_, res, ran = _run(W if level == "wf" else W2, args, d)
            lazy = {f["name"] for f in spec["fields"]} - eager
            premature = R.construction_model(spec, asg, lazy)
            if (st_ == "rejected" and not exp and not open_case and not ran and premature
                    and _through_construct(res)):
                # defect model: while the workflow is constructed the node's unresolved lazy
                # inputs are taken for "set" by the xor count and for "set to a value that is not
                # allowed" by requirements with allowed values
                out.append(dict(signature=LAZY_SIG, observed=short(res),
                                expected="accepted: " + canon(asg),
                                detail=dict(lazy_fields=sorted(lazy), decided_prematurely=premature)))
            else:
                judge(level, st_, res if st_ != "ok" else None, ran)
        finally:
            scratchdir.rm(d)
    else:
        raise ValueError(level)
    # the mixed-reading records of the three levels share one root cause / signature
    seen, uniq = set(), []
    for r in out:
        if r["signature"].endswith(MIXED_SIG):
            r["signature"] = MIXED_SIG
        if r["signature"] not in seen:
            seen.add(r["signature"])
            uniq.append(r)
    return uniq


def check_consistency(case):
    """one reading of 'explicit False of an Optional[bool]' must explain every verdict"""
    spec = case["def"]
    T, _, _ = build(spec)
    rows = []
    for asg in R.assignments(spec):
        if not R.ambiguous(spec, asg):
            continue
        st_, exc = _l1(T, _kwargs(asg))
        if st_ == "error":
            return [dict(signature=exception_signature(exc, "l1-unexpected-exception"),
                         observed=short(exc), expected="ValueError or success")]
        rows.append((asg, st_ == "ok"))
    if not rows:
        return []
    fits = {rd: all(ok == (not R.violated(spec, asg, rd)) for asg, ok in rows)
            for rd in ("unset", "set", "mixed")}
    if fits["unset"] or fits["set"]:
        return []
    bad = [dict(asg=a, accepted=ok, if_unset=not R.violated(spec, a, "unset"),
                if_set=not R.violated(spec, a, "set")) for a, ok in rows][:6]
    return [dict(signature=MIXED_SIG if fits["mixed"] else "no-single-reading-of-False-explains-verdicts",
                 observed=bad, expected="all verdicts follow from one reading of an explicit False")]


def check_case(case):
    if case["level"] == "consistency":
        return check_consistency(case)
    return check_assignment(case)


# ---------------------------------------------------------------------- exploration
def _labels(spec, asg):
    exp_u, exp_s = R.violated(spec, asg, "unset"), R.violated(spec, asg, "set")
    if bool(exp_u) != bool(exp_s):
        return ["undefined_by_statement:explicit_False_of_optional_bool"], True
    labels = ["expect_" + (R.rule_kinds(exp_u) if exp_u else "ok")]
    k = R.kinds(spec)
    involved = False
    for f in spec["fields"]:
        if f.get("requires") and R.is_set(f["kind"], asg[f["name"]], False):
            involved = True
            if not any(lb == f"requires:{f['name']}" for lb in exp_u):
                labels.append("requirement_satisfied")
                if any(a is not None for rs in f["requires"] for _, a in rs):
                    labels.append("requirement_with_allowed_values_active")
    for grp in spec.get("xor", []):
        if any(g is not None and R.is_set(k[g], asg[g], False) for g in grp):
            involved = True
    return labels, bool(exp_u) or (involved and R.has_rules(spec))


def run(sh):
    def body(args):
        spec, picks = args
        try:
            build(spec)
        except ValueError as e:
            # a definition pydra refuses to build is a clean rejection, not a rule verdict
            sh.count("definition_rejected")
            sh.note(f"definition rejected: {short(e, 160)}")
            return
        sh.count("definitions")
        if spec.get("xor"):
            sh.count("definitions_with_xor")
        if any(f.get("requires") for f in spec["fields"]):
            sh.count("definitions_with_requires")
        all_asg = list(R.assignments(spec))
        accepted = [i for i, a in enumerate(all_asg) if not R.violated(spec, a, "unset")]
        sample = {accepted[(p * 7 + j * len(accepted) // OK_RUNS) % len(accepted)]
                  for j, p in enumerate(picks[4:])} if accepted else set()
        for i, asg in enumerate(all_asg):
            if sh.out_of_time():
                return
            labels, nt = _labels(spec, asg)
            if i in sample:
                labels = labels + ["accepted_and_run_end_to_end"]
            sh.run_case(dict(level="task", **{"def": spec}, asg=asg, run=i in sample),
                        nontrivial=nt, labels=labels, raise_unattributed=True)
        if any(R.ambiguous(spec, a) for a in all_asg):
            sh.run_case(dict(level="consistency", **{"def": spec}), nontrivial=True,
                        labels=["consistency_case"], raise_unattributed=True)
        passable = [a for a in all_asg if R.UNSET not in [v for v in a.values() if isinstance(v, str)]]
        bad = [a for a in passable if R.violated(spec, a, "unset") and not R.ambiguous(spec, a)]
        good = [a for a in passable if not R.violated(spec, a, "unset") and not R.ambiguous(spec, a)]
        for j, (pool, idx) in enumerate(((bad, picks[0]), (bad, picks[1]), (good, picks[2]),
                                         (good, picks[3]))):
            if pool:
                asg = pool[idx % len(pool)]
                labels, nt = _labels(spec, asg)
                # with xor groups, every other workflow case passes the xor members eagerly (the
                # all-lazy variant is stopped at construction by F-C31-2)
                level = "wf2" if spec.get("xor") and j % 2 == 0 else "wf"
                sh.run_case(dict(level=level, **{"def": spec}, asg=asg), nontrivial=nt,
                            labels=[level + "_" + lb for lb in labels[:1]], raise_unattributed=True)

    strat = st.tuples(G.definitions(), st.tuples(*[st.integers(0, 242)] * (4 + OK_RUNS)))
    sh.given(strat, body, sh.budget(150, 4000), tag="defs")
