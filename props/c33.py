"""C33  Workflow output files are collected into the workflow's cache directory without clashes
or loss.

A case is one workflow run: nested values (list/dict/tuple, depth <= 2) of File/Directory objects
created in several scratch directories (colliding and distinct basenames, repeated objects, plain
leaves in between) are passed as workflow inputs, a python node returns them unchanged and the
workflow returns them as one or two outputs (from one node or from two nodes).

Oracle (on the returned outputs and the files on disk)
  * shape, container types, keys and non-file leaves are unchanged;
  * every returned File/Directory is of the same class, lies inside the workflow's own cache
    directory and has the content of its source;
  * two different sources never share a destination (nor is one destination inside another);
  * the sources still exist with their content (collection copies/links, it does not move).
"""
from __future__ import annotations

import os
from pathlib import Path

from hypothesis import strategies as st

from vlib import scratchdir
from vlib.gen import files3 as G
from vlib.harness import exception_signature, short
from vlib.ref import files3 as R

ID = "C33"
LEVEL = "exploration"
DESIGN_REF = "5/C33"
TECHNIQUE = "generated nested file values through a workflow; invariants on outputs and disk"
RULE = (
    "cases = (workflow with 1 output / 2 outputs of one node / 2 outputs of two nodes, nested "
    "values of depth <= 2 over list/tuple/dict whose leaves are File/Directory objects from 3 "
    "source directories x 5 basenames (incl. one that looks like a clash-renamed name) and plain "
    "values, worker debug|cf, hard-link possible | forced copy). Non-trivial = at least two "
    "DIFFERENT sources with the same basename are returned, or one object is returned more than "
    "once; distinct = whole case."
)
ASSUMPTIONS = [
    "sources and cache root live on one tmpfs mount; the cross-device branch is reached by "
    "patching MountIndentifier.on_same_mount to False (debug worker only)",
    "a source returned through two different output fields may be collected twice (the statement "
    "only forbids two sources sharing one destination)",
]
WFS = {"WF1": 1, "WF2": 2, "WF2n": 2}


def _wf(name):
    from vlib import tasks_files3 as T

    return {"WF1": T.FilesWF1, "WF2": T.FilesWF2, "WF2n": T.FilesWF2n}[name]


def check_case(case):
    root = scratchdir.new("c33")
    patched = None
    cwd0 = os.getcwd()      # a failing job may leave the process inside its (soon deleted) job dir
    try:
        specs = case["values"]
        objects: dict = {}
        nonce = "@" + root.name
        values = [G.build(s, root / "in", objects, nonce) for s in specs]
        cache = root / "cache"
        if case.get("mount") == "other":
            import pydra.utils.typing as PT

            patched = PT.MountIndentifier.on_same_mount
            PT.MountIndentifier.on_same_mount = classmethod(lambda cls, a, b: False)
        try:
            wf = _wf(case["wf"])(**dict(zip(["x", "y"], values)))
            worker = case.get("worker", "debug")
            outs = wf(cache_root=cache, worker=worker, **({"n_procs": 2} if worker == "cf" else {}))
        except Exception as e:  # noqa
            return [dict(signature=exception_signature(e, "wf-output-collection-raises"),
                         observed=short(e), expected="outputs collected")]
        finally:
            if patched is not None:
                PT.MountIndentifier.on_same_mount = patched
                patched = None
        wfdirs = sorted(p for p in cache.iterdir() if p.is_dir() and p.name.startswith("workflow-"))
        if len(wfdirs) != 1:
            return [dict(signature="harness:cannot-identify-workflow-dir", observed=[str(p) for p in wfdirs],
                         expected="one workflow-* directory")]
        wfdir = wfdirs[0]
        names = ["out"] if WFS[case["wf"]] == 1 else ["o1", "o2"]
        recs = []
        dests: dict[str, set] = {}          # destination path -> source keys
        for name, spec in zip(names, specs):
            got = G.describe(getattr(outs, name))
            problems, pairs = G.match(spec, got)
            for kind, pos, detail in problems:
                recs.append(dict(signature=f"output-{kind}", observed=detail,
                                 expected=G.describe_spec(spec, root / "in"),
                                 detail=dict(field=name, position=list(pos))))
            for pos, leaf, cls, paths in pairs:
                want_cls = "File" if leaf[0] == "file" else "Directory"
                where = dict(field=name, position=list(pos), source=G.source_key(leaf))
                if cls != want_cls:
                    recs.append(dict(signature="output-file-class-changed", observed=cls,
                                     expected=want_cls, detail=where))
                    continue
                if len(paths) != 1:
                    recs.append(dict(signature="output-fileset-paths-changed", observed=paths,
                                     expected="one path", detail=where))
                    continue
                p = Path(paths[0])
                if not p.is_relative_to(wfdir):
                    recs.append(dict(signature="output-file-not-in-workflow-dir", observed=str(p),
                                     expected=f"inside {wfdir.name}", detail=where))
                    continue
                try:
                    content = G.read_source(p, leaf[0])
                except OSError as e:
                    recs.append(dict(signature="output-file-missing-on-disk", observed=short(e),
                                     expected="readable copy", detail=where))
                    continue
                if content != G.source_content(leaf, nonce):
                    recs.append(dict(signature="output-file-content-differs", observed=content,
                                     expected=G.source_content(leaf, nonce), detail=where))
                dests.setdefault(str(p), set()).add(G.source_key(leaf))
        for d, srcs in sorted(dests.items()):
            if len(srcs) > 1:
                recs.append(dict(signature="distinct-sources-share-destination", observed=d,
                                 expected="one destination per source", detail=sorted(srcs)))
        ds = sorted(dests)
        for a in ds:
            for b in ds:
                if a != b and Path(b).is_relative_to(a):
                    recs.append(dict(signature="destination-inside-another-destination",
                                     observed=[a, b], expected="disjoint destinations"))
        for _, leaf in [pl for s in specs for pl in R.file_leaves(s)]:
            src = G.source_path(root / "in", leaf)
            try:
                ok = G.read_source(src, leaf[0]) == G.source_content(leaf, nonce)
            except OSError:
                ok = False
            if not ok:
                recs.append(dict(signature="source-lost-or-modified", observed=str(src),
                                 expected="source untouched", detail=G.source_key(leaf)))
                break
        # keep one record per signature
        seen, uniq = set(), []
        for r in recs:
            if r["signature"] not in seen:
                seen.add(r["signature"])
                uniq.append(r)
        return uniq
    finally:
        if patched is not None:
            import pydra.utils.typing as PT

            PT.MountIndentifier.on_same_mount = patched
        os.chdir(cwd0)
        scratchdir.rm(root)


def classify(case):
    leaves = [leaf for s in case["values"] for _, leaf in R.file_leaves(s)]
    keys = [G.source_key(x) for x in leaves]
    by_name: dict = {}
    for x in leaves:
        by_name.setdefault(x[2], set()).add(G.source_key(x))
    labels = [f"wf_{case['wf']}", f"worker_{case.get('worker', 'debug')}",
              f"mount_{case.get('mount', 'same')}",
              f"depth_{max(R.depth(s) for s in case['values'])}"]
    clash = any(len(v) > 1 for v in by_name.values())
    repeated = len(keys) != len(set(keys))
    if clash:
        labels.append("basename_clash_between_sources")
    if any(len({k.split(":")[0] for k in v}) > 1 for v in by_name.values()):
        labels.append("file_and_directory_same_name")
    if repeated:
        labels.append("repeated_object")
    if any(x[0] == "dir" for x in leaves):
        labels.append("has_directory")
    if not leaves:
        labels.append("no_files")
    if any(x[2] == "a (1).txt" for x in leaves) and "a.txt" in by_name:
        labels.append("prerenamed_name_present")
    return clash or repeated, labels


@st.composite
def cases(draw):
    wf = draw(st.sampled_from(["WF1", "WF1", "WF2", "WF2n"]))
    values = draw(G.nested_values(WFS[wf]))
    worker = draw(st.sampled_from(["debug"] * 29 + ["cf"]))
    mount = draw(st.sampled_from(["same", "same", "other"])) if worker == "debug" else "same"
    return dict(wf=wf, values=values, worker=worker, mount=mount)


def run(sh):
    def body(case):
        nt, labels = classify(case)
        sh.run_case(case, nontrivial=nt, labels=labels, raise_unattributed=True)

    sh.given(cases(), body, sh.budget(192, 3000), tag="wf")


_ = os
