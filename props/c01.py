"""C01  Split expands to exactly the outer/inner product of the split inputs.

L1: State(name, splitter).prepare_states -> states_val, exhaustively over all trees with
    <= 3 fields x lengths 0..3 (quick) plus all 4-field trees x lengths 1..3 (thorough).
L2: Task.split(tree, **lists)(cache_root=...) end to end with a tagging task and an
    execution log, on Hypothesis-sampled trees over <= 4 fields, lengths 0..3; some lists hold
    one None/falsy element, and flat outer products are also spelled keyword-only.
Oracle: vlib/ref/splitter.py.
"""
from __future__ import annotations

import itertools

from hypothesis import strategies as st

from vlib import scratchdir
from vlib.harness import exception_signature, short
from vlib.ref import splitter as R

ID = "C01"
LEVEL = "exploration"
DESIGN_REF = "5/C01, 3.1"
RULE = (
    "cases = (splitter tree over distinct fields a..d built from n-ary outer/inner nodes, "
    "length vector); L1 enumerates the whole space (<=3 fields x lengths 0..3; thorough adds 4 "
    "fields x lengths 0..3) against State.prepare_states, L2 runs Hypothesis-sampled cases end to "
    "end through Task.split()(...) with an execution log (lists may hold one None/0/\"\"/False/[]/0.0 "
    "element or a repeated element; flat outer products are also spelled keyword-only). Non-trivial = >=2 split fields and (a "
    "nested node or an inner node); distinct = (level, canonical tree, length vector)."
)
ASSUMPTIONS = [
    "L1 reads State.states_val (internal); if that API is missing the L1 part is skipped and noted",
    "equal element count but different shape under an inner node is accepted either way "
    "(rejection or positional pairing): the statement does not decide it",
    "debug worker for L2",
]
EXHAUSTIVE_WHEN_COMPLETED = True
EXHAUSTIVE_NOTE = "L1 sub-space only (see counters l1_*); L2 is sampled"
SHARDS = {"quick": 16, "thorough": 16}


def vals(f, n):
    return [f"{f}{i}" for i in range(n)]


# ------------------------------------------------------------------ L1
def l1_rows(tree, lens):
    from pydra.engine.state import State

    stt = State("N", splitter=R.to_py(tree))
    inputs = {f"N.{f}": vals(f, n) for f, n in lens.items()}
    stt.prepare_states(inputs)
    rows = []
    for row in stt.states_val:
        rows.append({k.split(".", 1)[1]: v for k, v in row.items()})
    return rows


def check_l1(tree, lens):
    kind, rows = R.verdict(tree, lens)
    try:
        got = l1_rows(tree, lens)
        exc = None
    except Exception as e:  # noqa
        got, exc = None, e
    if kind == "ok":
        exp = [{f: f"{f}{i}" for f, i in r.items()} for r in rows]
        if exc is not None:
            return [dict(signature=exception_signature(exc, "l1-valid-split-raises"),
                         observed=short(exc), expected=exp[:6])]
        if got != exp:
            sig = "l1-order" if sorted(map(repr, got)) == sorted(map(repr, exp)) else "l1-rows"
            return [dict(signature=sig, observed=got[:12], expected=exp[:12])]
    elif kind == "reject":
        if exc is None:
            return [dict(signature="l1-mismatched-inner-not-rejected", observed=got[:12],
                         expected="rejection")]
    return []


# ------------------------------------------------------------------ L2
ODD = {"none": None, "zero": 0, "empty": "", "false": False, "list": [], "fzero": 0.0}


def field_values(f, n, odd):
    """tagged values; `odd` = {field: [index, kind]} puts one falsy/None element in the list"""
    out = vals(f, n)
    if odd and f in odd and n:
        i, kind = odd[f]
        if kind == "dup":  # a repeated element: two jobs with identical inputs
            out[i % n] = out[(i + 1) % n]
        else:
            out[i % n] = ODD[kind]
    return out


def check_l2(tree, lens, odd=None, implicit=False):
    from vlib.tasks import Tag, read_log

    d = scratchdir.new("c01")
    try:
        log = str(d / "log.jsonl")
        fields = R.fields_of(tree)
        kind, rows = R.verdict(tree, lens)
        consts = {f: f.upper() for f in "abcd" if f not in fields}
        try:
            lists = {f: field_values(f, lens[f], odd) for f in fields}
            if implicit:  # keyword-only spelling: the fields in keyword order, outer product
                task = Tag(log=log, **consts).split(**lists)
            else:
                task = Tag(log=log, **consts).split(R.to_py(tree), **lists)
            outs = task(cache_root=d / "cache", worker="debug")
            got = [o for o in outs.out]
            exc = None
        except Exception as e:  # noqa
            got, exc = None, e
        ran = read_log(log)
        if kind == "ok":
            exp = []
            lists = {f: field_values(f, lens[f], odd) for f in fields}
            for r in rows:
                exp.append([lists[f][r[f]] if f in r else f.upper() for f in "abcd"])
            tag = ("-implicit" if implicit else "") + ("-odd-element" if odd else "")
            if exc is not None:
                return [dict(signature=exception_signature(exc, "l2-valid-split-raises" + tag),
                             observed=short(exc), expected=exp[:6])]
            if repr(got) != repr(exp):
                sig = "l2-order" if sorted(map(repr, got)) == sorted(map(repr, exp)) else "l2-outputs"
                return [dict(signature=sig + tag, observed=repr(got[:12]), expected=repr(exp[:12]))]
            has_dup = bool(odd) and any(k == "dup" for _, k in odd.values())
            same_runs = (set(map(repr, ran)) == set(map(repr, exp))) if has_dup else (
                sorted(map(repr, ran)) == sorted(map(repr, exp)))  # identical jobs may run once
            if not same_runs:
                return [dict(signature="l2-executions", observed=ran[:12], expected=exp[:12],
                             detail="set of executed job inputs differs from the expansion")]
        elif kind == "reject":
            if exc is None:
                return [dict(signature="l2-mismatched-inner-not-rejected", observed=got[:12],
                             expected="rejection before any job")]
            if ran:
                return [dict(signature="l2-jobs-ran-before-rejection", observed=ran[:12],
                             expected="no job executed", detail=short(exc))]
        else:  # undefined by the statement: rejection or positional pairing both fine
            if exc is None and got is not None:
                n = {len(ev_rows) for ev_rows in [got]}
                _ = n
        return []
    finally:
        scratchdir.rm(d)


def check_case(case):
    if case["level"] == "L1":
        return check_l1(case["tree"], case["lens"])
    return check_l2(case["tree"], case["lens"], case.get("odd"), case.get("implicit", False))


# ------------------------------------------------------------------ generators
@st.composite
def tree_strategy(draw, max_fields=4, names="abcd"):
    n = draw(st.integers(1, max_fields))
    fs = draw(st.permutations(list(names[:max_fields])))[:n]

    def build(fields):
        if len(fields) == 1:
            return fields[0]
        k = draw(st.integers(2, len(fields)))
        cuts = sorted(draw(st.lists(st.integers(1, len(fields) - 1), min_size=k - 1, max_size=k - 1,
                                    unique=True)))
        parts = [fields[i:j] for i, j in zip([0] + cuts, cuts + [len(fields)])]
        return [draw(st.sampled_from("OI")), [build(p) for p in parts]]

    return build(list(fs))


@st.composite
def l2_case(draw):
    tree = draw(tree_strategy())
    fields = R.fields_of(tree)
    # bias towards equal lengths so that inner nodes are often valid
    if draw(st.booleans()):
        n = draw(st.integers(0, 3))
        lens = {f: n for f in fields}
        if draw(st.booleans()) and len(fields) > 1:
            lens[draw(st.sampled_from(fields))] = draw(st.integers(0, 3))
    else:
        lens = {f: draw(st.integers(0, 3)) for f in fields}
    case = dict(level="L2", tree=tree, lens=lens)
    if draw(st.integers(0, 3)) == 0:  # one None / falsy element in some of the lists
        odd = {}
        for f in fields:
            if draw(st.booleans()):
                odd[f] = [draw(st.integers(0, 2)), draw(st.sampled_from(sorted(ODD) + ["dup", "dup"]))]
        if odd:
            case["odd"] = odd
    flat = R.is_leaf(tree) or (tree[0] == "O" and all(R.is_leaf(k) for k in tree[1]))
    if flat and draw(st.integers(0, 2)) == 0:
        case["implicit"] = True
    return case


def l1_space(tier):
    for nf in (1, 2, 3):
        for t in R.all_trees(nf):
            fs = R.fields_of(t)
            for lv in itertools.product(range(0, 4), repeat=nf):
                yield t, dict(zip(fs, lv))
    if tier == "thorough":
        for t in R.all_trees(4):
            fs = R.fields_of(t)
            for lv in itertools.product(range(0, 4), repeat=4):
                yield t, dict(zip(fs, lv))


def run(sh):
    try:
        from pydra.engine.state import State  # noqa: F401

        l1_ok = hasattr(State, "prepare_states")
    except Exception:
        l1_ok = False
    if l1_ok:
        completed = True
        for i, (t, lens) in enumerate(l1_space(sh.tier)):
            if i % sh.n != sh.index:
                continue
            if sh.out_of_time():
                completed = False
                break
            case = dict(level="L1", tree=t, lens=lens)
            kind, _ = R.verdict(t, lens)
            sh.run_case(case, nontrivial=R.nontrivial(t), labels=(f"l1_{kind}",))
        if completed:
            sh.count("exhaustive_subspaces_completed")
    else:
        sh.note("L1 unavailable: State.prepare_states not found")

    def body(case):
        kind, _ = R.verdict(case["tree"], case["lens"])
        labels = [f"l2_{kind}"] + (["l2_odd_element"] if case.get("odd") else []) + (
            ["l2_implicit_kwargs_splitter"] if case.get("implicit") else [])
        sh.run_case(case, nontrivial=R.nontrivial(case["tree"]) or bool(case.get("odd")), labels=labels,
                    raise_unattributed=True)

    sh.given(l2_case(), body, sh.budget(640, 24000), tag="l2")
