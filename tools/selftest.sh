#!/bin/bash
# tools/selftest.sh <patch.diff> <ID> [<ID>...]   (optionally TIER=thorough)
# Applies the patch to a scratch copy of /repo's working tree under /dev/shm, runs the quick
# checks against the copy (evidence and replays are redirected) and expects exit 1.
# Prints one line per check: CAUGHT / MISSED / ERROR.  The copy is removed afterwards.
PATCH="$(readlink -f "$1")"; shift
HERE="$(cd "$(dirname "${BASH_SOURCE[0]}")/.." && pwd)"
W=$(mktemp -d /dev/shm/pydra-mut-XXXXXX)
trap 'rm -rf "$W"' EXIT
mkdir -p "$W/repo"
(cd /repo && tar cf - --exclude=.git --exclude='*.pyc' --exclude=__pycache__ pydra pyproject.toml) | tar xf - -C "$W/repo"
if ! (cd "$W/repo" && patch -p1 -s --no-backup-if-mismatch < "$PATCH"); then echo "PATCH-FAILED $PATCH"; exit 2; fi
rc_all=0
for id in "$@"; do
  out=$(VERIF_REPO="$W/repo" VERIF_EVIDENCE_DIR="$W/evidence" VERIF_FOUND_DIR="$W/found" "$HERE/check" "$id" --tier "${TIER:-quick}" 2>&1)
  rc=$?
  case $rc in
    1) echo "CAUGHT $id $(basename "$PATCH"): $(echo "$out" | grep -m1 -A1 '^VIOLATION' | tr '\n' ' ' | cut -c1-260)";;
    0) echo "MISSED $id $(basename "$PATCH"): $(echo "$out" | tail -1)"; rc_all=1;;
    *) echo "ERROR($rc) $id $(basename "$PATCH"): $(echo "$out" | tail -5)"; rc_all=2;;
  esac
done
exit $rc_all
