import sys,subprocess,shutil,os
# usage: m.py <name> <file> <old> <new>  -> writes /verif/mutants/<name>.diff
name,file,old,new=sys.argv[1:5]
src=open('/repo/'+file).read()
assert src.count(old)==1, src.count(old)
os.makedirs('/dev/shm/w/mm/a/'+os.path.dirname(file),exist_ok=True); os.makedirs('/dev/shm/w/mm/b/'+os.path.dirname(file),exist_ok=True)
open('/dev/shm/w/mm/a/'+file,'w').write(src); open('/dev/shm/w/mm/b/'+file,'w').write(src.replace(old,new))
r=subprocess.run(['diff','-u','a/'+file,'b/'+file],cwd='/dev/shm/w/mm',capture_output=True,text=True)
open('/verif/mutants/'+name+'.diff','w').write(r.stdout); print(r.stdout[:600])
shutil.rmtree('/dev/shm/w/mm')
