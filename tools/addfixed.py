#!/usr/bin/env python3
"""tools/addfixed.py <property[,property...]> <repo-commit> "<what failed>" -> appends a status=fixed entry"""
import json, sys, subprocess
from pathlib import Path
HOME = Path(__file__).resolve().parent.parent
props, commit, what = sys.argv[1:4]
full = subprocess.run(["git", "-C", "/repo", "rev-parse", commit], capture_output=True, text=True).stdout.strip()
subj = subprocess.run(["git", "-C", "/repo", "log", "-1", "--format=%s", commit], capture_output=True, text=True).stdout.strip()
kf = HOME / "known_findings.json"
import fcntl
_lock = open(HOME / ".known.lock", "w"); fcntl.flock(_lock, fcntl.LOCK_EX)
k = json.loads(kf.read_text())
for prop in props.split(","):
    k["findings"].append(dict(id=f"X-{prop}-{full[:8]}", property=prop, status="fixed", commit=full, subject=subj, what=what,
                              line=f"fixed: property={prop} {full[:12]} {what}"))
kf.write_text(json.dumps(k, indent=1) + "\n")
print("recorded", props, full[:12])
