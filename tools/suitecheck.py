#!/usr/bin/env python3
"""Run the repository suite (xdist) and compare with BASELINE.json stable_pass.
usage: tools/suitecheck.py [pytest args / paths ...]   (default: whole suite, -n 14)"""
import json, subprocess, sys, xml.etree.ElementTree as ET, os, tempfile
b = json.load(open("/root/.vp/BASELINE.json"))
stable = set(b["stable_pass"])
out = tempfile.mktemp(suffix=".xml", dir="/dev/shm")
args = sys.argv[1:] or []
env = dict(os.environ); env.pop("PYDRA_VERIF", None)
cmd = ["/venv/bin/python", "-m", "pytest", "-q", "-p", "no:cacheprovider", "--timeout=900",
       "--continue-on-collection-errors", f"--junitxml={out}", "-n", os.environ.get("N", "14")] + args
subprocess.run(cmd, cwd="/repo", env=env, stdout=subprocess.DEVNULL, stderr=subprocess.DEVNULL)
res = {}
for tc in ET.parse(out).getroot().iter("testcase"):
    name = f"{tc.get('classname')}::{tc.get('name')}"
    bad = any(c.tag in ("failure", "error") for c in tc)
    skipped = any(c.tag == "skipped" for c in tc)
    res[name] = "fail" if bad else ("skip" if skipped else "pass")
os.unlink(out)
ran_stable = [n for n in res if n in stable]
regress = sorted(n for n in ran_stable if res[n] != "pass")
print(f"ran {len(res)} tests, {len(ran_stable)} of {len(stable)} stable_pass; regressions: {len(regress)}")
for n in regress: print("  REGRESSION", n, res[n])
sys.exit(1 if regress else 0)
