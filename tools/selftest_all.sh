#!/bin/bash
# tools/selftest_all.sh [pattern]: run every mutants/<ID>-*.diff against the check named by its prefix
# (4 at a time); results go to mutants/RESULTS.txt (CAUGHT/MISSED/ERROR lines).
cd "$(dirname "${BASH_SOURCE[0]}")/.."
PAT="${1:-C}"
out=mutants/RESULTS.txt; : > $out.tmp
ls mutants/${PAT}*.diff | xargs -P 4 -I{} bash -c 'f={}; id=$(basename $f | cut -d- -f1); tools/selftest.sh $f $id 2>&1 | tail -1' >> $out.tmp
sort $out.tmp > $out; rm -f $out.tmp
grep -c "^CAUGHT" $out; grep -v "^CAUGHT" $out
