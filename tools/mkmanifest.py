#!/usr/bin/env python3
"""Regenerates MANIFEST.json from the check modules present in props/ (run from /verif)."""
import ast
import json
import re
import sys
from pathlib import Path

HOME = Path(__file__).resolve().parent.parent
props = [json.loads(l) for l in (HOME / "properties.jsonl").read_text().splitlines() if l.strip()]

READY = set(json.loads((HOME / "tools" / "ready.json").read_text()))
NA_REASONS = json.loads((HOME / "tools" / "not_applicable.json").read_text())


def consts(path):
    tree = ast.parse(path.read_text())
    out = {}
    for node in tree.body:
        if isinstance(node, ast.Assign) and len(node.targets) == 1 and isinstance(node.targets[0], ast.Name):
            try:
                out[node.targets[0].id] = ast.literal_eval(node.value)
            except Exception:
                pass
    return out


TECH = {
    "C01": "exhaustive enumeration of splitter trees x lengths (State level) + Hypothesis-sampled end-to-end runs vs a reference splitter algebra",
    "C02": "exhaustive enumeration of (splitter, lengths, combiner) + sampled end-to-end runs vs a reference partition; multiset law",
    "C03": "property-based testing: generated workflow programs vs a nested-loop reference interpreter, failures minimised and bucketed by defect model",
    "C04": "enumerated + generated nested containers vs an independent depth-n flattener",
    "C05": "differential testing of rewritten (equivalent) splitter spellings + generated malformed requests with an execution log",
    "C07": "differential hashing of one value spec across interpreters with different PYTHONHASHSEED, insertion orders, pickling, workers and cache roots",
    "C08": "property-based testing of hashing laws (determinism, order-insensitivity, discrimination under one-aspect mutations, context-freedom) over a typed value grammar",
}
checks, na = [], []
for p in props:
    pid = p["id"]
    f = HOME / "props" / f"{pid.lower()}.py"
    if not f.exists() or pid in NA_REASONS.get("force", {}) or pid not in READY:
        na.append(dict(property_id=pid, reason=NA_REASONS.get("force", {}).get(pid) or NA_REASONS.get(pid)
                       or "check not built yet (work in progress); nothing is claimed for it"))
        continue
    c = consts(f)
    checks.append(dict(
        property_id=pid,
        quick_cmd=f"./check {pid} --tier quick",
        thorough_cmd=f"./check {pid} --tier thorough",
        evidence_file=f"/verif/evidence/{pid}.json",
        replay_cmd_template=f"./check {pid} --replay {{path}}",
        engine=c.get("ENGINE", "hypothesis-pbt"),
        level_claimed=dict(category=c["LEVEL"], text=c.get("LEVEL_TEXT", c["RULE"]),
                           design_ref=f"DESIGN.md §{c.get('DESIGN_REF', '5/' + pid)}"),
        level_note="; ".join(c.get("ASSUMPTIONS", [])) or "none beyond the harness itself",
        technique=c.get("TECHNIQUE") or TECH.get(pid, "property-based testing: generated cases vs an independent reference model"),
    ))

manifest = dict(
    version=1,
    setup_cmd="./setup.sh",
    hooks=dict(
        guard="PYDRA_VERIF",
        enable="no source hooks: instrumentation is harness-side (sys.monitoring, Worker subclass, attribute "
               "patching); ./check exports PYDRA_VERIF=1 for forward compatibility",
        baseline_off_cmd="cd /repo && env -u PYDRA_VERIF /venv/bin/python -m pytest -ra -q -p no:cacheprovider "
                         "--timeout=900 --continue-on-collection-errors",
        source_commits=[],
        add_only=True,
    ),
    engines=[
        dict(name="hypothesis-pbt", path="vlib/", serves_properties=[c["property_id"] for c in checks],
             kind_free_text="Hypothesis strategies / exhaustive enumerations of JSON case specs, sharded over 16 "
                            "fresh interpreters, checked against reference models in vlib/ref"),
    ],
    checks=checks,
    notes="See DESIGN.md. Exit 0 = held (KNOWN-FINDING lines allowed), 1 = VIOLATION, 2 = harness error. "
          "known_findings.json lists recorded/fixed defects.",
    not_applicable=na,
)
(HOME / "MANIFEST.json").write_text(json.dumps(manifest, indent=1) + "\n")
print(f"{len(checks)} checks, {len(na)} not_applicable")
