#!/usr/bin/env python3
"""tools/sizes.py: one line 'C01 n, C02 n, ...' (evaluations per check) from evidence/*.json"""
import json
from pathlib import Path
HOME = Path(__file__).resolve().parent.parent
out = []
for f in sorted((HOME / "evidence").glob("C*.json")):
    e = json.loads(f.read_text())
    n = e.get("evaluations")
    if n is None:
        n = (e.get("coverage") or {}).get("evaluations")
    out.append(f"{f.stem} {n}")
print(", ".join(out))
