#!/bin/bash
# tools/runall.sh [tier] [ids...]: run the checks one after another; one summary line per check.
TIER="${1:-quick}"; shift
cd "$(dirname "${BASH_SOURCE[0]}")/.."
IDS="$@"; [ -z "$IDS" ] && IDS=$(ls props | grep -o '^c[0-9]*' | tr a-z A-Z | sort -u)
for id in $IDS; do
  t0=$(date +%s); out=$(./check $id --tier $TIER 2>&1); rc=$?; t1=$(date +%s)
  echo "$id rc=$rc $((t1-t0))s $(echo "$out" | tail -1 | cut -c1-170)"
  [ $rc -ne 0 ] && echo "$out" | grep -A2 "^VIOLATION\|^HARNESS" | head -12 | cut -c1-300
done
