#!/usr/bin/env python3
"""tools/addknown.py <found-replay.json> <finding-id> "<what>"  -> copies the witness to
replays/known/ and appends a status=known entry to known_findings.json (build-time only)."""
import json, sys, shutil
from pathlib import Path
HOME = Path(__file__).resolve().parent.parent
src, fid, what = sys.argv[1:4]
data = json.loads(Path(src).read_text())
dst = HOME / "replays" / "known" / f"{fid}.json"
dst.write_text(json.dumps(data, indent=1))
kf = HOME / "known_findings.json"
import fcntl
_lock = open(HOME / ".known.lock", "w"); fcntl.flock(_lock, fcntl.LOCK_EX)
k = json.loads(kf.read_text())
k["findings"] = [e for e in k["findings"] if e["id"] != fid]
k["findings"].append(dict(id=fid, property=data["property"], status="known", what=what,
                          signature=data["signature"], witness=f"replays/known/{fid}.json"))
kf.write_text(json.dumps(k, indent=1) + "\n")
print("added", fid, data["signature"])
