#!/usr/bin/env python3
"""Regenerates section 11 of DESIGN.md from known_findings.json (run from anywhere)."""
import json, collections, subprocess
from pathlib import Path
HOME = Path(__file__).resolve().parent.parent
p = HOME / "DESIGN.md"; s = p.read_text()
k = json.loads((HOME / "known_findings.json").read_text())
fx = [e for e in k["findings"] if e["status"] == "fixed"]; kn = [e for e in k["findings"] if e["status"] == "known"]
bycommit = collections.OrderedDict()
for e in fx:
    bycommit.setdefault(e["commit"][:8], {"props": [], "subject": e.get("subject", "")})["props"].append(e["property"])
nfix = subprocess.run(["git", "-C", "/repo", "log", "--oneline", "--grep=^fix:", "21a48eb2..HEAD"], capture_output=True, text=True).stdout.count("\n")
fixed_lines = "\n".join(f"| `{c}` | {', '.join(sorted(set(v['props'])))} | {v['subject'].replace('fix: ', '')} |" for c, v in bycommit.items())
known_lines = "\n".join(f"| {e['id']} | {e['property']} | {e['what'][:260].replace('|', '/')}{'...' if len(e['what']) > 260 else ''} |" for e in kn)
i = s.index("### 11.1 Repaired in /repo"); j = s.index("Why these were not repaired:")
new = f"""### 11.1 Repaired in /repo (one `fix:` commit each; {len(bycommit)} commits cover {len(fx)} finding entries; /repo has {nfix} `fix:` commits in total)

| commit | properties | repair |
|---|---|---|
{fixed_lines}

The remaining `fix:` commits repair regressions of the above that the checks themselves found (see
section 10): `b01d3ae0` (truth value of non-file inputs in `Job.inputs`), `22e4c7fa` and the
`Job.inputs` underscore guard. After all repairs the repository suite was run with the BASELINE command
(plus `-n 14` and a private XDG_CACHE_HOME): 1349 passed / 19 failed; 17 failures are the baseline's
`always_fail` set, the other two (`test_wf_nostate_cachelocations_setoutputchange_a[cf]`,
`test_inner_outer_wf_duplicate`, both timing-sensitive under 14 parallel workers) pass when
`test_workflow_run.py` is run sequentially (271 passed, 4 xfailed).

### 11.2 Recorded, not repaired ({len(kn)})

| id | property | what fails |
|---|---|---|
{known_lines}

"""
p.write_text(s[:i] + new + s[j:])
print(len(bycommit), len(fx), len(kn), nfix)
