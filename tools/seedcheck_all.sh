#!/bin/bash
# tools/seedcheck_all.sh: re-verify every seeded change against the check of its property
# (3 at a time); writes seeded/RESULTS.txt.
cd "$(dirname "${BASH_SOURCE[0]}")/.."
: > seeded/RESULTS.tmp
ls -d seeded/C*/ | xargs -P 3 -I{} bash -c 'd={}; id=$(basename $d | cut -d- -f1); tools/seedcheck.sh $d $id 2>&1 | tr "\n" " " | cut -c1-330; echo' >> seeded/RESULTS.tmp
sort seeded/RESULTS.tmp | sed 's/  */ /g' > seeded/RESULTS.txt; rm -f seeded/RESULTS.tmp
grep -c "CAUGHT" seeded/RESULTS.txt; grep -v "CAUGHT" seeded/RESULTS.txt
