#!/usr/bin/env python3
"""tools/markfixed.py <finding-id> <repo-commit>: turn a status=known entry into status=fixed
(the signature stays recorded for reference, but a fixed entry suppresses nothing)."""
import json, sys, subprocess, fcntl
from pathlib import Path
HOME = Path(__file__).resolve().parent.parent
fid, commit = sys.argv[1:3]
full = subprocess.run(["git", "-C", "/repo", "rev-parse", commit], capture_output=True, text=True).stdout.strip()
subj = subprocess.run(["git", "-C", "/repo", "log", "-1", "--format=%s", commit], capture_output=True, text=True).stdout.strip()
_lock = open(HOME / ".known.lock", "w"); fcntl.flock(_lock, fcntl.LOCK_EX)
kf = HOME / "known_findings.json"
k = json.loads(kf.read_text())
hit = False
for e in k["findings"]:
    if e["id"] == fid:
        e["status"] = "fixed"; e["commit"] = full; e["subject"] = subj
        e["line"] = f"fixed: property={e['property']} {full[:12]} {e['what']}"
        hit = True
kf.write_text(json.dumps(k, indent=1) + "\n")
print("marked" if hit else "NOT FOUND", fid, full[:12])
