#!/bin/bash
# tools/seedcheck.sh <seed-dir> [check IDs...]: validates a seeded change against /repo's working tree:
#  demo exits 0 on the unchanged copy and !=0 on the patched copy; then runs the quick checks
#  against the patched copy (CAUGHT = exit 1).  Everything happens in a scratch copy under /dev/shm.
D="$(readlink -f "$1")"; shift
HERE="$(cd "$(dirname "${BASH_SOURCE[0]}")/.." && pwd)"
W=$(mktemp -d /dev/shm/pydra-seed-XXXXXX); trap 'rm -rf "$W"' EXIT
mkdir -p "$W/repo"
(cd /repo && tar cf - --exclude=.git --exclude='*.pyc' --exclude=__pycache__ pydra pyproject.toml) | tar xf - -C "$W/repo"
cp "$D/demo.py" "$W/repo/demo.py"
(cd "$W/repo" && NO_ET=true PYTHONPATH="$W/repo" timeout 900 /venv/bin/python demo.py >"$W/un.log" 2>&1); un=$?
if ! (cd "$W/repo" && patch -p1 -s --no-backup-if-mismatch < "$D/patch.diff"); then echo "PATCH-FAILED $(basename $D)"; exit 2; fi
(cd "$W/repo" && NO_ET=true PYTHONPATH="$W/repo" timeout 900 /venv/bin/python demo.py >"$W/pa.log" 2>&1); pa=$?
echo "DEMO $(basename $D): unpatched_exit=$un patched_exit=$pa"
[ $un -ne 0 ] && tail -5 "$W/un.log"
for id in "$@"; do
  out=$(VERIF_REPO="$W/repo" VERIF_EVIDENCE_DIR="$W/evidence" VERIF_FOUND_DIR="$W/found" "$HERE/check" "$id" --tier "${TIER:-quick}" 2>&1); rc=$?
  case $rc in
    1) echo "  CAUGHT by $id: $(echo "$out" | grep -m1 -A1 '^VIOLATION' | tail -1 | cut -c1-200)";;
    0) echo "  MISSED by $id: $(echo "$out" | tail -1 | cut -c1-160)";;
    *) echo "  ERROR($rc) $id: $(echo "$out" | tail -3 | cut -c1-300)";;
  esac
done
