"""Coverage-guided secondary driver for C38 (thorough tier): libFuzzer (atheris) mutates the byte
string that Hypothesis turns into a case of vlib.gen.mounts.cases(); the oracle is props.c38.check_case,
i.e. exactly the property function of the primary driver.

usage: python fuzz/c38_atheris.py <summary.json> <known-signature>... -- <libFuzzer args>
Writes {"executions": n, "violation": null | {"case": ..., "record": ...}, "known_hits": n}.
"""
import atexit
import json
import sys

import atheris

sep = sys.argv.index("--")
summary_path, known = sys.argv[1], set(sys.argv[2:sep])
fuzz_argv = [sys.argv[0]] + sys.argv[sep + 1:]

with atheris.instrument_imports(include=["pydra.utils.mount_identifier", "props.c38",
                                         "vlib.ref.mounts"]):
    import pydra.utils.mount_identifier  # noqa: F401
    from props import c38

from hypothesis import HealthCheck, given, settings  # noqa: E402

from vlib.gen import mounts as G  # noqa: E402

stats = {"executions": 0, "known_hits": 0, "violation": None}


def dump():
    with open(summary_path, "w") as f:
        json.dump(stats, f)


atexit.register(dump)


@settings(database=None, deadline=None, suppress_health_check=list(HealthCheck))
@given(G.cases())
def prop(case):
    stats["executions"] += 1
    if stats["executions"] % 500 == 0:
        dump()  # libFuzzer leaves through _exit: atexit handlers do not run
    recs = c38.check_case(case)
    stats["known_hits"] += sum(1 for r in recs if r["signature"] in known)
    bad = [r for r in recs if r["signature"] not in known]
    if bad:
        stats["violation"] = dict(case=case, record=bad[0])
        dump()
        raise AssertionError(bad[0]["signature"])


atheris.Setup(fuzz_argv, prop.hypothesis.fuzz_one_input)
atheris.Fuzz()
